"""Comparison expressions: guard idioms -> facts (DESIGN 3.3).  Each idiom carries a
one-line soundness note.  Result values are C(True)/C(False) per path."""
from __future__ import annotations

import ast

from .terms import C, G, is_call, is_const, is_lit, is_param_rooted, lit_const_values
from .walker import CONTAINERS, NUM

HASHABLE = frozenset(["str", "int", "float", "bool", "NoneType", "bytes", "tuple", "type"])
TYPE_NAMES = {"dict", "list", "tuple", "str", "int", "float", "bool", "bytes", "set", "frozenset"}


def keys_of(t):
    """sorted(list(d.keys())) / list(d.keys()) / sorted(d) / set(d) / list(d) -> d"""
    seen = False
    while is_call(t, ("builtin:sorted", "builtin:list", "builtin:set", "builtin:tuple", "builtin:frozenset")) and len(t[2]) == 1:
        t = t[2][0]
        seen = True
    if is_call(t, "method:keys") and len(t[2]) == 1:
        return t[2][0]
    return t if seen else None


def keys_order_free(t):
    """does the key-list expression forget the mapping's insertion order (sorted(...) / set(...))?"""
    while is_call(t, ("builtin:sorted", "builtin:list", "builtin:set", "builtin:tuple", "builtin:frozenset")) and len(t[2]) == 1:
        if t[1] in ("builtin:sorted", "builtin:set", "builtin:frozenset"):
            return True
        t = t[2][0]
    return False


def type_name_of(w, t):
    """name of a type object term, or None"""
    if isinstance(t, tuple) and t and t[0] == "global":
        q = t[1]
        if q.startswith("builtin:"):
            n = q[8:]
            return n if n in TYPE_NAMES or n == "NoneType" else "obj:" + n
        if q.startswith("class:"):
            return "obj:" + q[6:]
        if q.startswith("ext:"):
            return "obj:" + q[4:]
    if is_call(t, "builtin:type") and len(t[2]) == 1 and is_const(t[2][0]):
        return t[2][0][1]
    return None


def type_names_of(w, t):
    """names for the second argument of isinstance / a display of type objects"""
    if is_lit(t):
        out = []
        for x in t[2]:
            sub = type_names_of(w, x)
            if sub is None:
                return None
            out += sub
        return out
    lit = w.const_literal(t, None)
    if lit is not None:
        return type_names_of(w, lit)
    n = type_name_of(w, t)
    return None if n is None else [n]


def compare(w, e, st):
    op = e.ops[0]
    outs = []
    cur, bad = w.seq([e.left, e.comparators[0]], st)
    outs.extend(bad)
    for s, (l, r) in cur:
        if isinstance(op, (ast.In, ast.NotIn)):
            _membership(w, e, s, l, r, isinstance(op, ast.In), outs)
        elif isinstance(op, (ast.Eq, ast.NotEq)):
            _equality(w, e, s, l, r, isinstance(op, ast.Eq), outs)
        elif isinstance(op, (ast.Lt, ast.LtE, ast.Gt, ast.GtE)):
            _ordering(w, e, s, l, r, {ast.Lt: "<", ast.LtE: "<=", ast.Gt: ">", ast.GtE: ">="}[type(op)], outs)
        elif isinstance(op, (ast.Is, ast.IsNot)):
            _identity(w, e, s, l, r, isinstance(op, ast.Is), outs)
        else:
            w.unsupported(e, "comparison operator")
    return outs


def _emit(outs, s_true, s_false, positive):
    if s_true is not None:
        outs.append((s_true, "val", C(positive)))
    if s_false is not None:
        outs.append((s_false, "val", C(not positive)))


def _membership(w, e, s, l, r, positive, outs):
    # x in frozenset(L) / set(L) / tuple(L) / list(L) / sorted(L): the same question as x in L (the
    # collection was built from L on this path and holds exactly its members)
    while is_call(r, ("builtin:frozenset", "builtin:set", "builtin:tuple", "builtin:list", "builtin:sorted")) and len(r[2]) == 1 and not r[3] and not (isinstance(r[2][0], tuple) and r[2][0] and r[2][0][0] in ("comp", "gen")):
        inner = r[2][0]
        ti = s.types(inner)
        if ti is not None and ti <= {"dict"} and False:
            break
        r = inner
    if isinstance(r, tuple) and ((len(r) == 5 and r[0] == "comp" and r[1] == "gen") or (len(r) == 3 and r[0] == "gen")):
        # `x in <one-shot iterator>` consumes the iterator up to the first match: the answer
        # depends on what was consumed before - nothing is learnt about x
        s1 = s.copy()
        s1.ev("iterator-consumed", w.site(e), r)
        outs.append((s1, "val", C(True)))
        outs.append((s1.copy(), "val", C(False)))
        return
    if is_lit(r, "dict") and is_const(l) and all(is_const(k) for k, _v in r[2]):
        # a dict display with constant keys that nothing has stored into since: decided by its keys
        from .walker import _deep_events, _root_term

        if not any(ev[0] in ("store", "del", "mutcall") and _root_term(ev[2]) == r for ev in _deep_events(s.events)):
            outs.append((s, "val", C((l in [k for k, _v in r[2]]) == positive)))
            return
    rlit = r if is_lit(r) else w.const_literal(r, s)
    if rlit is not None and not is_lit(rlit):
        norm = _as_set_literal(w, rlit, s)  # frozenset({...}) bound to a module constant
        if is_lit(norm):
            rlit = norm
    if rlit is not None and is_lit(rlit) and rlit[1] != "dict":
        vals = lit_const_values(rlit)
        # constant folding: "root" in ["root", "key_mgr"]
        if vals is not None and is_const(l):
            try:
                res = l[2] in [tuple(v) if isinstance(v, tuple) else v for v in vals]
            except TypeError:
                res = None
            if res is not None:
                outs.append((s, "val", C(res == positive)))
                return
        # type(x) in {dict, list, ...}: exact-type test against a display of type objects
        if is_call(l, "builtin:type") and len(l[2]) == 1:
            names = type_names_of(w, rlit)
            if names is not None:
                a, b = s.copy(), s.copy()
                a.add(("type", l[2][0], frozenset(names)))
                b.add(("nottype", l[2][0], frozenset(names)))
                _emit(outs, None if s.contradicts(("type", l[2][0], frozenset(names))) else a, None if s.contradicts(("nottype", l[2][0], frozenset(names))) else b, positive)
                return
        # sorted(list(d.keys())) in [[..], [..]]: the key set is one of the alternatives
        d = keys_of(l)
        if d is not None and vals is not None and all(isinstance(v, tuple) for v in vals):
            alts = frozenset(frozenset(v) for v in vals)
            a, b = s.copy(), s.copy()
            a.add(("keysin", d, alts) if len(alts) > 1 else ("keys", d, next(iter(alts))))
            for kk in frozenset.intersection(*alts) if alts else ():
                a.add(("has", d, C(kk)), ("ok", ("sub", d, C(kk))))
            if keys_order_free(l) and all(list(v) == sorted(v) for v in vals):
                b.add(("notkeysin", d, alts))
            else:
                # an order-sensitive comparison: a mismatch says nothing about the key *set*
                b.add(("notin", l, r))
            _emit(outs, a, b, positive)
            return
        a, b = s.copy(), s.copy()
        a.add(("in", l, r))
        b.add(("notin", l, r))
        if vals is not None and len(vals) == 1 and not isinstance(vals[0], tuple):
            a.add(("eq", l, C(vals[0])))
            b.add(("ne", l, C(vals[0])))
        if rlit[1] == "set":
            lt = s.types(l)
            if lt is None or not lt <= HASHABLE:
                w.rz(outs, s, e, "TypeError", "membership test of a possibly unhashable value in a set", [("nottype", l, HASHABLE)])
        _emit(outs, None if s.contradicts(("in", l, r)) else a, None if s.contradicts(("notin", l, r)) else b, positive)
        return
    # general container
    ts = s.types(r)
    lt = s.types(l)
    if ts is None or not ts <= CONTAINERS:
        w.rz(outs, s, e, "TypeError", "membership test on a value that may not be a container", [("nottype", r, CONTAINERS)])
    elif ts & {"dict", "set", "frozenset"} and (lt is None or not lt <= HASHABLE):
        w.rz(outs, s, e, "TypeError", "membership test of a possibly unhashable value", [("nottype", l, HASHABLE)])
    elif ts & {"str", "bytes"} and (lt is None or not lt <= {"str", "bytes", "int"}):
        w.rz(outs, s, e, "TypeError", "membership test of a non-string in a string", [("nottype", l, frozenset(["str"]))])
    a = b = None
    if not s.contradicts(("has", r, l)):
        a = s.copy()
        a.add(("has", r, l))
        if ts is not None and ts <= {"dict"}:
            a.add(("ok", ("sub", r, l)))
    if not s.contradicts(("nothas", r, l)):
        b = s.copy()
        b.add(("nothas", r, l))
    _emit(outs, a, b, positive)


def _as_set_literal(w, t, s):
    """a set display, or frozenset(...)/set(...) of a display, or a module constant bound to one"""
    lit = t
    if isinstance(t, tuple) and len(t) == 2 and t[0] == "global" and t[1].startswith("const:"):
        lit = w.const_literal(t, s) or t
    if is_call(lit, ("builtin:frozenset", "builtin:set")) and len(lit[2]) == 1 and is_lit(lit[2][0]) and lit[2][0][1] in ("set", "list", "tuple"):
        inner = lit[2][0]
        return ("lit", "set", inner[2], inner[3])
    if is_lit(lit, "set"):
        return lit
    return t


def _equality(w, e, s, l, r, positive, outs):
    if is_const(l) and not is_const(r):
        l, r = r, l
    r = _as_set_literal(w, r, s)
    if is_const(l) and is_const(r):
        outs.append((s, "val", C((l[2] == r[2]) == positive)))
        return
    if _is_enum(l) and _is_enum(r):
        outs.append((s, "val", C((l == r) == positive)))
        return
    # {a, b, ...} == {c}: a display of values equals a one-element constant set iff every value
    # equals that constant
    for p, q in ((l, r), (r, l)):
        if is_lit(p, "set") and p[2] and is_lit(q, "set") and len(q[2]) == 1 and is_const(q[2][0]) and not all(is_const(x) for x in p[2]):
            c0 = q[2][0]
            t_state = s.copy()
            feasible = True
            for it in p[2]:
                if t_state.contradicts(("eq", it, c0)):
                    feasible = False
                t_state.add(("eq", it, c0))
            if feasible:
                outs.append((t_state, "val", C(positive)))
            for it in p[2]:
                if not s.contradicts(("ne", it, c0)):
                    f_state = s.copy()
                    f_state.add(("ne", it, c0))
                    outs.append((f_state, "val", C(not positive)))
            return
    a, b = s.copy(), s.copy()
    # set(x) == {"a", "b"}: x has exactly these keys (x's iteration yields exactly them)
    if is_call(l, ("builtin:set", "builtin:frozenset")) and len(l[2]) == 1 and is_lit(r, "set"):
        vals = lit_const_values(r)
        if vals is not None:
            x = l[2][0]
            ks = frozenset(vals)
            a.add(("keys", x, ks))
            for kk in ks:
                a.add(("has", x, C(kk)))
            xt = s.types(x)
            if xt is not None and xt <= {"dict"}:
                for kk in ks:
                    a.add(("ok", ("sub", x, C(kk))))
            b.add(("notkeys", x, ks))
            _emit(outs, None if s.contradicts(("keys", x, ks)) else a, b, positive)
            return
    # d.keys() == {"a", "b"}: a dict view equals a set iff it has exactly these keys
    if is_call(l, "method:keys") and len(l[2]) == 1 and is_lit(r, "set"):
        vals = lit_const_values(r)
        if vals is not None:
            x = l[2][0]
            ks = frozenset(vals)
            a.add(("keys", x, ks))
            for kk in ks:
                a.add(("has", x, C(kk)), ("ok", ("sub", x, C(kk))))
            b.add(("notkeys", x, ks))
            _emit(outs, None if s.contradicts(("keys", x, ks)) else a, b, positive)
            return
    # sorted(d) == ["a", "b"] / list(d.keys()) == [...]
    d = keys_of(l)
    if d is not None and is_lit(r) and lit_const_values(r) is not None and r[1] in ("list", "tuple"):
        ks = frozenset(lit_const_values(r))
        a.add(("keys", d, ks))
        for kk in ks:
            a.add(("has", d, C(kk)), ("ok", ("sub", d, C(kk))))
        if (keys_order_free(l) and list(lit_const_values(r)) == sorted(lit_const_values(r))) or len(ks) <= 1:
            b.add(("notkeys", d, ks))
        else:
            # list(d) == [..] / tuple(d) == (..) depend on insertion order (and sorted(d) == [unsorted]
            # never holds): a mismatch says nothing about the key *set*
            b.add(("ne", l, r))
        _emit(outs, a, b, positive)
        return
    a.add(("eq", l, r))
    b.add(("ne", l, r))
    # int(x) == x: x is a number equal to its integer part (A3: no custom __eq__)
    for p, q in ((l, r), (r, l)):
        if is_call(p, "builtin:int") and len(p[2]) == 1 and p[2][0] == q:
            a.add(("type", q, NUM), ("integral", q))
    _emit(outs, None if s.contradicts(("eq", l, r)) else a, None if s.contradicts(("ne", l, r)) else b, positive)


def _ordering(w, e, s, l, r, op, outs):
    tl, tr = s.types(l), s.types(r)
    # a module constant bound to a set / frozenset display
    if tl is None and is_lit(_as_set_literal(w, l, s), "set"):
        tl = frozenset(["frozenset"])
    if tr is None and is_lit(_as_set_literal(w, r, s), "set"):
        tr = frozenset(["frozenset"])
    numeric = tl is not None and tr is not None and tl <= NUM and tr <= NUM
    same = tl is not None and tr is not None and len(tl) == 1 and tl == tr and tl <= {"str", "bytes", "list", "tuple"}
    sets = tl is not None and tr is not None and tl <= {"set", "frozenset"} and tr <= {"set", "frozenset"}
    if not (numeric or same or sets):
        conds = []
        if tr is not None and tr <= NUM:
            conds.append(("nottype", l, NUM))
        elif tl is not None and tl <= NUM:
            conds.append(("nottype", r, NUM))
        w.rz(outs, s, e, "TypeError", "ordering comparison of possibly incomparable values", conds)
    a, b = s.copy(), s.copy()
    for x in (a, b):
        # evaluated without TypeError against a number: the other side is a number (A3)
        if tr is not None and tr <= NUM:
            x.add(("type", l, NUM))
        if tl is not None and tl <= NUM:
            x.add(("type", r, NUM))
    neg = {"<": ">=", ">=": "<", ">": "<=", "<=": ">"}[op]
    a.add(("cmp", op, l, r))
    if sets:
        # inclusion is a partial order: "not (A <= B)" is not "A > B"
        b.add(("notcmp", op, l, r))
        _emit(outs, None if s.contradicts(("cmp", op, l, r)) else a, None if s.holds(("cmp", op, l, r)) else b, True)
        return
    b.add(("cmp", neg, l, r))
    if is_const(l) and is_const(r):
        try:
            res = {"<": l[2] < r[2], "<=": l[2] <= r[2], ">": l[2] > r[2], ">=": l[2] >= r[2]}[op]
            outs.append((s, "val", C(res)))
            return
        except TypeError:
            return
    _emit(outs, None if s.contradicts(("cmp", op, l, r)) else a, None if s.contradicts(("cmp", neg, l, r)) else b, True)


def _is_enum(t):
    return isinstance(t, tuple) and len(t) == 3 and t[0] == "enum"


def _identity(w, e, s, l, r, positive, outs):
    if _is_enum(l) and _is_enum(r):
        outs.append((s, "val", C((l == r) == positive)))  # enum members are singletons
        return
    def _sentinel(x):
        if is_lit(x, "object"):
            return x
        if isinstance(x, tuple) and len(x) == 2 and x[0] == "global" and x[1].startswith("const:"):
            lit = w.const_literal(x, s)
            if is_lit(lit, "object") or (is_call(lit, "builtin:object") and not lit[2] and not lit[3]):
                return ("lit", "object", (), (x[1],))  # NAME = object() at module level
        return x

    l, r = _sentinel(l), _sentinel(r)
    if is_lit(l, "object") or is_lit(r, "object"):
        # a sentinel made by object(): identical to itself, and to nothing that existed before it
        # was made or that is a value of another kind
        if l == r:
            outs.append((s, "val", C(positive)))
            return
        other = r if is_lit(l, "object") else l
        if is_const(other) or is_lit(other) or is_param_rooted(other):
            outs.append((s, "val", C(not positive)))
            return
    if is_const(r) and r[2] is None:
        a, b = s.copy(), s.copy()
        a.add(("type", l, frozenset(["NoneType"])))
        b.add(("nottype", l, frozenset(["NoneType"])))
        ts = s.types(l)
        ok_a = not (ts is not None and "NoneType" not in ts)
        ok_b = not (ts is not None and ts <= {"NoneType"})
        _emit(outs, a if ok_a else None, b if ok_b else None, positive)
        return
    if is_const(l) and is_const(r) and isinstance(r[2], bool):
        outs.append((s, "val", C((l[2] is r[2]) == positive)))
        return
    if all(isinstance(x, tuple) and len(x) == 2 and x[0] == "global" and x[1].startswith(("builtin:", "class:")) for x in (l, r)):
        outs.append((s, "val", C((l == r) == positive)))  # two classes: the same object or not
        return
    # type(x) is T (either way round) with T a builtin type: on the True side x is a T; the False
    # side says nothing usable (x may still be of a subclass)
    for tx, tt in ((l, r), (r, l)):
        if is_call(tx, "builtin:type") and len(tx[2]) == 1 and isinstance(tt, tuple) and len(tt) == 2 and tt[0] == "global" and tt[1].startswith("builtin:") and tt[1][8:] in ("str", "int", "float", "bool", "bytes", "bytearray", "memoryview", "dict", "list", "tuple", "set", "frozenset", "NoneType"):
            x, name = tx[2][0], tt[1][8:]
            ts = s.types(x)
            a, b = s.copy(), s.copy()
            a.add(("is", l, r), ("type", x, frozenset([name])))
            b.add(("isnot", l, r))
            ok_a = not (ts is not None and name not in ts) and not s.holds(("isnot", l, r))
            ok_b = not (ts is not None and ts <= {name} and name in ("bool", "NoneType")) and not s.holds(("is", l, r))
            _emit(outs, a if ok_a else None, b if ok_b else None, positive)
            return
    a, b = s.copy(), s.copy()
    a.add(("is", l, r))
    b.add(("isnot", l, r))
    if is_const(r) and isinstance(r[2], bool):
        a.add(("eq", l, r), ("type", l, frozenset(["bool"])))
    _emit(outs, None if s.holds(("isnot", l, r)) else a, None if s.holds(("is", l, r)) else b, positive)
