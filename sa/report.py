"""Obligations, verdicts, evidence, replay files, known findings (DESIGN 3.9)."""
from __future__ import annotations

import json
import os
import re
import time

from . import AnalysisError

VERIF = os.path.dirname(os.path.dirname(os.path.abspath(__file__)))
KNOWN_FILE = os.path.join(VERIF, "KNOWN_FINDINGS.txt")

GLOBAL_ASSUMPTIONS = {
    "A1": "CPython 3.12 semantics of the constructs used and of the stdlib rows in sa/tables.py (documented behaviour; the table is the trusted artefact)",
    "A2": "cryptography's Ed25519 sign/verify/from_*_bytes/*_bytes and SHA-256 implement RFC 8032 / FIPS 180-4; verify raises InvalidSignature exactly on invalid signatures",
    "A3": "arguments are builtin JSON-model values, bytes-likes, key objects or other objects without adversarial dunder methods",
    "A4": "nesting depth below the interpreter recursion limit",
    "A5": "byte strings shorter than 2**32 (only pack('>I', len(headers)))",
    "A6": "environment faults (closed stdout, disk errors) are outside 'inputs'",
    "A7": "pip/hatch console-script wrappers are sys.exit(<entry>())",
    "A8": "the analysed tree is what runs: no monkey-patching, python -O not used",
}


class Obligation:
    __slots__ = ("rule", "key", "loc", "text", "ok", "detail", "nontrivial")

    def __init__(self, rule, key, loc, text, ok, detail=None, nontrivial=True):
        self.rule, self.key, self.loc, self.text, self.ok = rule, key, loc, text, ok
        self.detail = detail or {}
        self.nontrivial = nontrivial

    def to_json(self):
        return {"rule": self.rule, "key": self.key, "loc": self.loc, "text": self.text, "ok": self.ok, "detail": self.detail}


class RuleContext:
    """what a property's rule module talks to"""

    def __init__(self, prop, eng, tier="quick"):
        self.prop = prop
        self.eng = eng
        self.prog = eng.prog
        from rules import hexlang

        hexlang.use_engine(eng)
        self.tier = tier
        self.obligations = []
        self.notes = []
        self.assumptions = []
        self.counts = {}
        self.info = {}

    # -- recording
    def ob(self, rule, key, loc, text, ok, detail=None, nontrivial=True):
        """record one obligation; key must be line-number free (rule|function|construct|class)"""
        o = Obligation(rule, "%s|%s" % (rule, key), loc, text, bool(ok), detail, nontrivial)
        self.obligations.append(o)
        return o

    def require(self, rule, key, loc, text, ok, detail=None):
        return self.ob(rule, key, loc, text, ok, detail)

    def failed(self, rule, key_prefix=""):
        """has an obligation of this rule (of this context, not of a same-named rule of a dependent
        property's sub-context) been reported as violated"""
        return any(o.rule == rule and not o.ok and o.key.startswith(key_prefix) for o in self.obligations)

    def count(self, name, n=1):
        self.counts[name] = self.counts.get(name, 0) + n

    def floor(self, name, minimum):
        """a rule that matched fewer instances than were confirmed by hand is broken, not green"""
        got = self.counts.get(name, 0)
        if got < minimum and not self.violations:  # a recorded violation already explains missing instances
            raise AnalysisError("%s: rule instance floor not met for %s: matched %d, expected at least %d" % (self.prop, name, got, minimum))

    def assume(self, *ids_or_text):
        for a in ids_or_text:
            t = "%s: %s" % (a, GLOBAL_ASSUMPTIONS[a]) if a in GLOBAL_ASSUMPTIONS else a
            if t not in self.assumptions:
                self.assumptions.append(t)

    def note(self, text):
        self.notes.append(text)

    def sub(self, prefix):
        """a view of this context that prefixes rule ids (for rules shared between properties)"""
        return _SubContext(self, prefix)

    @property
    def violations(self):
        return [o for o in self.obligations if not o.ok]


class _SubContext:
    def __init__(self, ctx, prefix):
        self._ctx, self._prefix = ctx, prefix

    def __getattr__(self, name):
        return getattr(self._ctx, name)

    def ob(self, rule, key, loc, text, ok, detail=None, nontrivial=True):
        return self._ctx.ob("%s.%s" % (self._prefix, rule), key, loc, text, ok, detail, nontrivial)

    def failed(self, rule, key_prefix=""):
        return self._ctx.failed("%s.%s" % (self._prefix, rule), ("%s.%s" % (self._prefix, key_prefix)) if key_prefix else "")

    def count(self, name, n=1):
        return self._ctx.count("%s.%s" % (self._prefix, name), n)

    def floor(self, name, minimum):
        return self._ctx.floor("%s.%s" % (self._prefix, name), minimum)

    @property
    def counts(self):
        """this sub-context's own counters, under their unprefixed names"""
        pre = self._prefix + "."
        return {k[len(pre):]: v for k, v in self._ctx.counts.items() if k.startswith(pre)}

    def sub(self, prefix):
        return _SubContext(self._ctx, self._prefix + "." + prefix)


def settle_unknown_calls(ctx):
    """callables without a table row were treated as opaque: definite violations stand; without
    any, the run has no verdict"""
    unk = ctx.eng.unknown_calls
    if not unk:
        return
    listing = "; ".join(sorted(unk.values()))[:600]
    if not ctx.violations:
        raise AnalysisError("%s: no verdict - the analysed code calls callables that have no row in the may-raise/effect table (sa/tables.py): %s" % (ctx.prop, listing))
    ctx.note("callables without a table row were treated as opaque (result unknown, may raise anything): " + listing)


def load_known():
    known, fixed = [], []
    if os.path.exists(KNOWN_FILE):
        for line in open(KNOWN_FILE, encoding="utf-8"):
            line = line.strip()
            if not line or line.startswith("#"):
                continue
            m = re.match(r"known:\s+property=(\S+)\s+key=(.+?)\s+--\s+(.*)$", line)
            if m:
                known.append((m.group(1), m.group(2).strip(), m.group(3)))
                continue
            m = re.match(r"fixed:\s+property=(\S+)\s+(\S+)\s+(.*)$", line)
            if m:
                fixed.append((m.group(1), m.group(2), m.group(3)))
    return known, fixed


def finish(ctx, t0, explanation, rule_text, extra_cov=None, seed=0, write=True, evidence_dir=None):
    """print verdict lines, write evidence + replay files, return exit code"""
    evidence_dir = evidence_dir or os.path.join(VERIF, "evidence")
    known, _fixed = load_known()
    known_keys = {(p, k): txt for p, k, txt in known}
    real, listed = [], []
    for o in ctx.violations:
        if (ctx.prop, o.key) in known_keys:
            listed.append(o)
        else:
            real.append(o)
    os.makedirs(os.path.join(evidence_dir, "replay"), exist_ok=True)
    # stale replay files of this property
    for f in os.listdir(os.path.join(evidence_dir, "replay")):
        if f.startswith(ctx.prop + "-"):
            try:
                os.remove(os.path.join(evidence_dir, "replay", f))
            except OSError:
                pass
    for o in listed:
        print("KNOWN-FINDING: property=%s %s (%s) %s" % (ctx.prop, o.key, o.loc, known_keys[(ctx.prop, o.key)]))
    lines = []
    for i, o in enumerate(real, 1):
        path = os.path.join(evidence_dir, "replay", "%s-%d.json" % (ctx.prop, i))
        if write:
            with open(path, "w", encoding="utf-8") as f:
                json.dump({"property": ctx.prop, "tier": ctx.tier, "obligation": o.to_json(), "root": ctx.prog.root}, f, indent=1, default=str)
        print("  rule %s at %s: %s" % (o.rule, o.loc, o.text))
        detail = o.detail if isinstance(o.detail, dict) else ({"detail": o.detail} if o.detail else {})
        for k, v in detail.items():
            print("      %s: %s" % (k, v if isinstance(v, str) else json.dumps(v, default=str)[:600]))
        lines.append("VIOLATION property=%s replay=%s" % (ctx.prop, path))
    for ln in lines:
        print(ln)
    obs = ctx.obligations
    distinct_nontrivial = len({o.key for o in obs if o.nontrivial})
    samples = []
    seen_rules = set()
    for o in obs:
        if o.rule not in seen_rules or not o.ok:
            seen_rules.add(o.rule)
            samples.append(o.to_json())
        if len(samples) >= 40:
            break
    cov = {
        "explanation": explanation,
        "obligations": len(obs),
        "discharged": len([o for o in obs if o.ok]),
        "evaluations": max(1, len(obs)),
        "distinct_nontrivial": distinct_nontrivial,
        "rule": rule_text,
        "samples": samples,
        "rule_instances": dict(sorted(ctx.counts.items())),
        "functions_walked": ctx.eng.stats["functions_walked"],
        "paths_walked": ctx.eng.stats["paths"],
        "files_analysed": dict(sorted(ctx.prog.files.items())),
        "known_findings_listed": [o.key for o in listed],
        "notes": ctx.notes,
        "analysed_root": ctx.prog.root,
    }
    if ctx.eng._imports is not None:
        cov["dependency_files_parsed_for_import_closure"] = len(ctx.eng._imports.files_read)
    try:
        from .crossref import crossref

        cov["generic_crossref_informational"] = crossref(ctx.prog)
    except Exception as e:  # informational only
        cov["generic_crossref_informational"] = {"error": repr(e)}
    cov.update(ctx.info)
    if extra_cov:
        cov.update(extra_cov)
    ev = {
        "property_id": ctx.prop,
        "tier": ctx.tier,
        "seed": int(seed),
        "level": "other",
        "coverage": cov,
        "assumptions": ctx.assumptions,
        "wall_s": round(time.time() - t0, 3),
        "violations": len(real),
    }
    if write:
        with open(os.path.join(evidence_dir, ctx.prop + ".json"), "w", encoding="utf-8") as f:
            json.dump(ev, f, indent=1, default=str)
    print(
        "%s %s: %d obligations, %d discharged, %d violation(s), %d known finding(s); %d functions / %d paths walked; %.2fs"
        % (ctx.prop, ctx.tier, len(obs), cov["discharged"], len(real), len(listed), cov["functions_walked"], cov["paths_walked"], ev["wall_s"])
    )
    return 1 if real else 0
