"""Positive examples for the zero-count purity rules of C12/C04 (never executed:
the checker parses this file and every detector below must fire on every run)."""
import functools
import os
import time

_CACHE = {}
_SEEN = []
LAST_VERSION = 0


def writes_param_directly(signable, key):
    signable["signatures"].pop(key, None)
    return signable


def _normalise(md):
    md["signed"]["delegations"] = dict(md["signed"]["delegations"])


def writes_param_through_callee(trusted):
    _normalise(trusted)
    return trusted


def sorts_param_in_place(keys):
    keys.sort()
    return keys


def writes_module_cache(sig, data):
    _CACHE[sig] = data
    _SEEN.append(sig)


def writes_global_name(v):
    global LAST_VERSION
    LAST_VERSION = v


@functools.lru_cache(maxsize=None)
def cached_verdict(sig):
    return sig == "ok"


def mutable_default(x, memo={}):
    memo[x] = True
    return memo


def reads_environment():
    return os.environ.get("CCT_DEBUG"), time.time()


def function_attribute_cache(x):
    function_attribute_cache.last = x
    return x
